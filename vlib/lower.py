"""Mechanical C++ -> C lowering passes (DESIGN §2.1).  The passes never touch an operator, a constant, an index
expression, the order of statements or a memory order; they rewrite vocabulary and call syntax only.
Unit rules are must-fire: a rule that does not match raises ExtractError (-> exit 2)."""
import re
from .extract import match, match_angle, skip_literal, ExtractError

MO = {'relaxed': 'MO_RELAXED', 'acquire': 'MO_ACQUIRE', 'release': 'MO_RELEASE', 'acq_rel': 'MO_ACQ_REL',
      'seq_cst': 'MO_SEQ_CST', 'consume': 'MO_CONSUME'}


def bump(st, k, n=1):
    if n:
        st[k] = st.get(k, 0) + n


def attributes(s, st):
    n = 0
    s, k = re.subn(r'\[\[[^\]]*\]\]', '', s); n += k
    while True:
        m = re.search(r'__attribute__\s*\(', s)
        if not m:
            break
        e = match(s, m.end() - 1, '(', ')')
        s = s[:m.start()] + s[e + 1:]
        n += 1
    s, k = re.subn(r'\bnoexcept\b(\s*\([^)]*\))?', '', s); n += k
    while True:      # __builtin_expect((x), c) -> (x)   (QUILL_LIKELY / QUILL_UNLIKELY)
        m = re.search(r'__builtin_expect\s*\(', s)
        if not m:
            break
        e = match(s, m.end() - 1, '(', ')')
        inner = s[m.end():e]
        k2 = inner.rfind(',')
        s = s[:m.start()] + '(' + inner[:k2].strip() + ')' + s[e + 1:]
        n += 1
    bump(st, 'attributes', n)
    return s


def casts(s, st):
    while True:
        m = re.search(r'\b(static_cast|reinterpret_cast|const_cast)\s*<', s)
        if not m:
            return s
        j = match_angle(s, m.end() - 1)
        T = s[m.end():j]
        k = j + 1
        while s[k].isspace():
            k += 1
        e = match(s, k, '(', ')')
        s = s[:m.start()] + '((' + T + ')' + s[k:e + 1] + ')' + s[e + 1:]
        bump(st, 'casts')


def receiver_start(s, end):
    """s[end] is the '.' or '-' of an accessor; scan backwards over the postfix chain; return its start index"""
    i = end - 1
    while i >= 0:
        while i >= 0 and s[i].isspace():
            i -= 1
        if i < 0:
            break
        if s[i] == ')':
            d = 0
            while True:
                if s[i] == ')':
                    d += 1
                elif s[i] == '(':
                    d -= 1
                    if d == 0:
                        break
                i -= 1
            i -= 1
            while i >= 0 and (s[i].isalnum() or s[i] == '_'):
                i -= 1
        elif s[i] == ']':
            d = 0
            while True:
                if s[i] == ']':
                    d += 1
                elif s[i] == '[':
                    d -= 1
                    if d == 0:
                        break
                i -= 1
            i -= 1
            continue
        elif s[i].isalnum() or s[i] == '_':
            while i >= 0 and (s[i].isalnum() or s[i] == '_'):
                i -= 1
        else:
            break
        j = i
        while j >= 0 and s[j].isspace():
            j -= 1
        if j >= 0 and s[j] == '.':
            i = j - 1
            continue
        if j >= 1 and s[j - 1:j + 1] == '->':
            i = j - 2
            continue
        if j >= 1 and s[j - 1:j + 1] == '::':
            i = j - 2
            continue
        break
    return i + 1


def atomics(s, atomic_names, st):
    """x.load(mo) / x.store(v, mo) / ... -> ATOMIC_<OP>_<field>(recv, args, MO_<mo>); the order token is carried"""
    if not atomic_names:
        return s
    pat = re.compile(r'\b(%s)\s*\.\s*(load|store|exchange|fetch_add|fetch_sub|compare_exchange_strong|compare_exchange_weak)\s*\(' % '|'.join(map(re.escape, atomic_names)))
    pos = 0
    while True:
        m = pat.search(s, pos)
        if not m:
            return s
        e = match(s, m.end() - 1, '(', ')')
        args = s[m.end():e].strip()
        mos = []
        while True:
            mm = re.search(r',?\s*std::memory_order_(\w+)\s*$', args)
            if not mm:
                break
            mos.insert(0, MO[mm.group(1)])
            args = args[:mm.start()].strip()
        if not mos:
            mos = ['MO_SEQ_CST']
        j = m.start() - 1
        while j >= 0 and s[j].isspace():
            j -= 1
        if j >= 0 and s[j] == '.':
            a = receiver_start(s, j)
            recv = '&(' + s[a:j].strip() + ')'
        elif j >= 1 and s[j - 1:j + 1] == '->':
            a = receiver_start(s, j - 1)
            recv = '(' + s[a:j - 1].strip() + ')'
        else:
            recv = 'self'
            a = m.start()
        call = 'ATOMIC_%s_%s(%s%s, %s)' % (m.group(2).upper(), m.group(1), recv, (', ' + args) if args else '', ', '.join(mos))
        bump(st, 'atomic:%s.%s(%s)' % (m.group(1), m.group(2), ','.join(mos)))
        s = s[:a] + call + s[e + 1:]
        pos = a + len(call)


def recv_calls(s, table, st):
    """table: method name -> C function name.   RECV.m(args) / RECV->m(args) -> cfn(&(RECV) / (RECV), args)"""
    for mname, cfn in table.items():
        pos = 0
        pat = re.compile(r'(\.|->)\s*' + re.escape(mname) + r'\s*\(')
        while True:
            m = pat.search(s, pos)
            if not m:
                break
            acc = m.group(1)
            a = receiver_start(s, m.start())
            recv = s[a:m.start()].strip()
            if not recv:
                pos = m.end()
                continue
            e = match(s, m.end() - 1, '(', ')')
            args = s[m.end():e].strip()
            rp = ('&(' + recv + ')') if acc == '.' else '(' + recv + ')'
            new = '%s(%s%s)' % (cfn, rp, (', ' + args) if args else '')
            s = s[:a] + new + s[e + 1:]
            bump(st, 'recv:' + mname)
            pos = a + len(cfn) + 1
    return s


def subscripts(s, table, st):
    """table: container name -> element accessor;  name[idx] -> (*accessor(&(name), idx))"""
    for name, fn in table.items():
        pat = re.compile(r'(?<![\w>.])' + re.escape(name) + r'\s*\[')
        pos = 0
        while True:
            m = pat.search(s, pos)
            if not m:
                break
            e = match(s, m.end() - 1, '[', ']')
            new = '(*%s(&(%s), %s))' % (fn, name, s[m.end():e].strip())
            s = s[:m.start()] + new + s[e + 1:]
            bump(st, 'subscript:' + name)
            pos = m.start() + len(fn) + 3
    return s


def range_for(s, table, st):
    """for (T x : CONTAINER) { body }  ->  for (size_t __ik = 0; __ik < SIZE(&(CONTAINER)); ++__ik) { CT x = GET(&(CONTAINER), __ik); body }
    table: list of (container regex, size fn, get fn, C element type)"""
    k = 0
    pos = 0
    pat = re.compile(r'\bfor\s*\(\s*([^:;()]+?)\s*\b(\w+)\s*:\s*')
    while True:
        m = pat.search(s, pos)
        if not m:
            return s
        hdr_open = s.index('(', m.start())
        pe = match(s, hdr_open, '(', ')')
        cont = s[m.end():pe].strip()
        ent = None
        for rx, sizefn, getfn, cty in table:
            if re.fullmatch(rx, cont):
                ent = (sizefn, getfn, cty)
                break
        if ent is None:
            raise ExtractError('range-for over %r has no container shim' % cont)
        b0 = pe + 1
        while s[b0].isspace():
            b0 += 1
        if s[b0] != '{':
            raise ExtractError('range-for body without braces')
        iv = '__i%d' % k
        k += 1
        new = 'for (size_t %s = 0; %s < %s(&(%s)); ++%s) { %s %s = %s(&(%s), %s);' % (iv, iv, ent[0], cont, iv, ent[2], m.group(2), ent[1], cont, iv)
        s = s[:m.start()] + new + s[b0 + 1:]
        bump(st, 'range-for')
        pos = m.start() + len(new)


def throws(s, ret_default, st, std_classes=('QuillError',)):
    """throw X{...};  ->  { g_exc = EXC_STD|EXC_OTHER; return <default>; }"""
    while True:
        m = re.search(r'\bthrow\s*\(?\s*([\w:]+)\s*[\{\(]', s)
        if not m:
            m2 = re.search(r'\bthrow\s*;', s)
            if m2:
                raise ExtractError('re-throw is not lowered')
            return s
        cls = m.group(1)
        o = s[m.end() - 1]
        e = match(s, m.end() - 1, o, '}' if o == '{' else ')')
        k = e + 1
        while s[k] in ' )\n\t':
            k += 1
        if s[k] != ';':
            raise ExtractError('throw expression not followed by ; near %r' % s[m.start():k + 10])
        kind = 'EXC_STD' if (cls in std_classes or cls.startswith('std::') or cls.endswith('Error') or cls.endswith('exception')) else 'EXC_OTHER'
        s = s[:m.start()] + '{ g_exc = %s; __THROW__; }' % kind + s[k + 1:]
        bump(st, 'throw')


def members(s, fields, st, prefix='self->'):
    for f in fields:
        s, k = re.subn(r'(?<![\w>.])' + re.escape(f) + r'\b(?!\s*\()', prefix + f, s)
        bump(st, 'member', k)
    return s


def siblings(s, cls, names, st):
    for mname in names:
        s, k1 = re.subn(r'(?<![\w>.:])' + re.escape(mname) + r'\s*\(\s*\)', '%s_%s(self)' % (cls, mname), s)
        s, k2 = re.subn(r'(?<![\w>.:])' + re.escape(mname) + r'\s*\((?!self)', '%s_%s(self, ' % (cls, mname), s)
        bump(st, 'sibling:' + mname, k1 + k2)
    return s


def vocabulary(s, st):
    n = 0
    for a, b in (('nullptr', 'NULL'), ('std::byte', 'unsigned char'), ('std::size_t', 'size_t')):
        k = len(re.findall(r'(?<![\w:])' + re.escape(a) + r'\b', s))
        s = re.sub(r'(?<![\w:])' + re.escape(a) + r'\b', b, s)
        n += k
    s, k = re.subn(r'\bstd::(memcpy|memset|memchr|memmove|strlen)\b', r'\1', s); n += k
    s, k = re.subn(r'\bstd::(u?int(?:8|16|32|64)_t|uintptr_t|ptrdiff_t)\b', r'\1', s); n += k
    while True:      # C++14 digit separators 1'000'000
        s, k = re.subn(r"(?<=\d)'(?=\d)", '', s); n += k
        if not k:
            break
    s, k = re.subn(r'\b(\d+)ull\b', r'\1ULL', s); n += k
    s, k = re.subn(r'\b(\d+)u\b', r'\1U', s); n += k
    s, k = re.subn(r'std::numeric_limits\s*<\s*([\w:]+)\s*>\s*::\s*(max|min)\s*\(\s*\)', lambda m: 'LIMIT_%s_%s' % (m.group(2).upper(), m.group(1).replace('::', '_')), s); n += k
    # T x{e};  ->  T x = e;     (brace initialisation of a scalar local)
    def brace_init(m):
        if m.group(1).strip().startswith('return'):
            return m.group(0)
        return '%s %s = %s;' % (m.group(1), m.group(2), m.group(3).strip() or '0')
    s, k = re.subn(r'\b([A-Za-z_][\w:\*&\s]*?[\w\*&])\s+(\w+)\s*\{([^{};]*)\}\s*;', brace_init, s); n += k
    s, k = re.subn(r'\b(const\s+)?auto\s*(const\s*)?&\s*', 'AUTO_REF ', s); n += k
    bump(st, 'vocabulary', n)
    return s


def new_delete(s, st):
    def rep_new(m):
        return '%s* %s%s = %s_new(' % (m.group(3), m.group(1) or '', m.group(2), m.group(3))
    s, k = re.subn(r'\bauto\s*\*?\s*(const\s+)?(\w+)\s*=\s*new\s+(\w+)\s*\{', rep_new, s)
    if k:
        s = re.sub(r'(\w+_new\([^;]*)\};', r'\1);', s)
    # `new T(args)` as an expression (mem-initialiser lists): T_new(args)
    s, k3 = re.subn(r'\bnew\s+(\w+)\s*\(', r'\1_new(', s)
    k += k3
    s, k2 = re.subn(r'\bdelete\s+([^;\[\]]+);', r'OBJ_DELETE(\1);', s)
    bump(st, 'new', k)
    bump(st, 'delete', k2)
    return s


def if_constexpr(s, decide, st):
    """`if constexpr (COND) {A} [else {B}]` -> the arm selected by decide(COND) -> True/False/None (None: keep symbolic `if`)"""
    pos = 0
    while True:
        m = re.compile(r'\bif\s+constexpr\s*\(').search(s, pos)
        if not m:
            return s
        pe = match(s, m.end() - 1, '(', ')')
        cond = ' '.join(s[m.end():pe].split())
        v = decide(cond)
        if v is None:
            s = s[:m.start()] + 'if (' + s[m.end():]
            bump(st, 'if-constexpr-symbolic')
            pos = m.start() + 3
            continue
        k = pe + 1
        while s[k].isspace():
            k += 1
        if s[k] != '{':
            raise ExtractError('if constexpr without braces near %r' % s[m.start():k + 20])
        ae = match(s, k, '{', '}')
        thn = s[k:ae + 1]
        j = ae + 1
        while j < len(s) and s[j].isspace():
            j += 1
        els = ''
        end = ae + 1
        if s[j:j + 4] == 'else' and not (s[j + 4].isalnum() or s[j + 4] == '_'):
            j2 = j + 4
            while s[j2].isspace():
                j2 += 1
            if s[j2] == '{':
                ee = match(s, j2, '{', '}')
                els = s[j2:ee + 1]
                end = ee + 1
            elif s[j2:j2 + 2] == 'if':
                # else if [constexpr] ... : take the whole remaining if-chain as the else arm
                ee = _if_chain_end(s, j2)
                els = '{' + s[j2:ee] + '}'
                end = ee
            else:
                raise ExtractError('else arm without braces after if constexpr')
        s = s[:m.start()] + (thn if v else (els or '{}')) + s[end:]
        bump(st, 'if-constexpr:%s=%d' % (cond[:60], 1 if v else 0))
        pos = m.start()


def _if_chain_end(s, i):
    """s[i:] starts with 'if'; return index just past the complete if/else-if/else chain"""
    m = re.match(r'if\s*(constexpr\s*)?\(', s[i:])
    pe = match(s, i + m.end() - 1, '(', ')')
    k = pe + 1
    while s[k].isspace():
        k += 1
    if s[k] != '{':
        raise ExtractError('if without braces in constexpr chain')
    e = match(s, k, '{', '}')
    j = e + 1
    while j < len(s) and s[j].isspace():
        j += 1
    if s[j:j + 4] == 'else':
        j2 = j + 4
        while s[j2].isspace():
            j2 += 1
        if s[j2] == '{':
            return match(s, j2, '{', '}') + 1
        if s[j2:j2 + 2] == 'if':
            return _if_chain_end(s, j2)
        raise ExtractError('else without braces in constexpr chain')
    return e + 1


def if_init(s, st):
    """C++17  if (T x = e; cond) {..} [else ..]   ->   { T x = e; if (cond) {..} [else ..] }"""
    pos = 0
    while True:
        m = re.compile(r'\bif\s*\(').search(s, pos)
        if not m:
            return s
        pe = match(s, m.end() - 1, '(', ')')
        inner = s[m.end():pe]
        # top-level ';' inside the parentheses?
        d = 0
        semi = -1
        i = 0
        while i < len(inner):
            e = skip_literal(inner, i)
            if e >= 0:
                i = e + 1
                continue
            c = inner[i]
            if c in '([{':
                d += 1
            elif c in ')]}':
                d -= 1
            elif c == ';' and d == 0:
                semi = i
                break
            i += 1
        if semi < 0:
            pos = m.end()
            continue
        end = _if_chain_end(s, m.start())
        new = '{ ' + inner[:semi].strip() + '; if (' + inner[semi + 1:].strip() + ')' + s[pe + 1:end] + ' }'
        s = s[:m.start()] + new + s[end:]
        bump(st, 'if-with-initialiser')
        pos = m.start() + 2


def try_catch(s, st):
    """try { S } catch (T1 const& e) { H1 } catch (...) { H2 }   ->  ghost-flag form (DESIGN §2.4).
    After every statement of S that contains a call:  if (g_exc) goto __catch_k;
    Handlers that are absent in the source are absent in the lowering."""
    k = 0
    while True:
        m = None
        # innermost-first: find a `try {` whose block contains no further `try {`
        for mm in re.finditer(r'\btry\s*\{', s):
            e = match(s, mm.end() - 1, '{', '}')
            if not re.search(r'\btry\s*\{', s[mm.end():e]):
                m = mm
                break
        if not m:
            return s
        k += 1
        st_k = st.get('try', 0) + 1
        bump(st, 'try')
        lab = '__catch_%d' % st_k
        end_lab = '__endtry_%d' % st_k
        e = match(s, m.end() - 1, '{', '}')
        block = s[m.end():e]
        block = _insert_exc_checks(block, 'goto %s;' % lab)
        j = e + 1
        handlers = []
        while True:
            mc = re.match(r'\s*catch\s*\(', s[j:])
            if not mc:
                break
            pe = match(s, j + mc.end() - 1, '(', ')')
            decl = s[j + mc.end():pe].strip()
            b0 = pe + 1
            while s[b0].isspace():
                b0 += 1
            be = match(s, b0, '{', '}')
            handlers.append((decl, s[b0 + 1:be]))
            j = be + 1
        if not handlers:
            raise ExtractError('try without catch')
        out = '{ ' + block + ' goto %s; %s: ;\n' % (end_lab, lab)
        first = True
        for decl, body in handlers:
            if decl == '...':
                cond = 'g_exc != 0'
                bump(st, 'catch-all')
            elif re.search(r'\bstd::exception\b|\bQuillError\b|Error\b', decl):
                cond = 'g_exc == EXC_STD'
                bump(st, 'catch-std')
            else:
                raise ExtractError('unknown catch declaration %r' % decl)
            out += '%sif (%s) { g_exc = 0; %s }\n' % ('' if first else 'else ', cond, body)
            first = False
        out += ' %s: ; }' % end_lab
        s = s[:m.start()] + out + s[j:]


def _insert_exc_checks(block, action):
    """after every top-level or nested simple statement (ending in ';') that contains a call, add `if (g_exc) action`"""
    out = []
    i = 0
    n = len(block)
    start = 0
    depth_paren = 0
    while i < n:
        e = skip_literal(block, i)
        if e >= 0:
            i = e + 1
            continue
        ch = block[i]
        if ch == '(':
            i = match(block, i, '(', ')') + 1
            continue
        if ch == ';':
            stmt = block[start:i + 1]
            out.append(stmt)
            if re.search(r'[\w>\]]\s*\(', stmt) and not re.match(r'\s*(return|goto|break|continue)\b[^(]*;', stmt) and 'g_exc' not in stmt:
                if re.match(r'\s*return\b', stmt):
                    # return f(x);  -> evaluate, check, return   (left as is: the caller checks g_exc)
                    pass
                else:
                    out.append(' if (g_exc) %s' % action)
            start = i + 1
        elif ch in '{}':
            out.append(block[start:i + 1])
            start = i + 1
        i += 1
    out.append(block[start:])
    return ''.join(out)


def propagate_exceptions(s, ret_default, st):
    """outside try blocks: after each statement that calls something, `if (g_exc) return <default>;`"""
    rd = (' ' + ret_default) if ret_default else ''
    r = _insert_exc_checks(s, 'return%s;' % rd)
    bump(st, 'exc-propagation', r.count('if (g_exc) return') - s.count('if (g_exc) return'))
    return r


def apply_rules(s, rules, st, label='rule'):
    for idx, r in enumerate(rules):
        pat, rep = r[0], r[1]
        count = r[2] if len(r) > 2 else None   # exact number of expected matches, None = at least one
        flags = re.S
        s2, k = re.subn(pat, rep, s, flags=flags)
        if count == '?':        # optional rule (shared rule lists): may fire zero times
            bump(st, '%s:%s' % (label, pat[:50]), k)
            s = s2
            continue
        if k == 0 and count != '!':
            # a rule that does not fire is not an error by itself: whatever it was meant to rewrite either is gone (then the
            # contract decides) or is still there as C++ (then goto-cc rejects the unit: exit 2).  '!' marks the essential ones.
            bump(st, '%s-unfired:%s' % (label, pat[:50]))
            continue
        if k == 0:
            raise ExtractError('%s %d %r fired %d time(s), expected %s' % (label, idx, pat[:70], k, count if count is not None else '>=1'))
        if isinstance(count, int) and k > count:
            # the construct occurs more often than on the pinned tree: every occurrence gets the same shim (the rule rewrites a
            # construct, not a position); recorded so that the evidence shows the extraction drifted
            bump(st, '%s-overfired:%s' % (label, pat[:50]), k - count)
        bump(st, '%s:%s' % (label, pat[:50]), k)
        s = s2
    return s


def insert_loop_contracts(body, loops, st):
    """loops: {ordinal: contract text}; loop ordinals count for/while/do keywords in textual order.
    for(...)/while(...) : the contract goes right after the header's closing parenthesis;
    do {...} while(...); : right after the closing parenthesis of the while condition."""
    if not loops:
        return body
    pat = re.compile(r'\b(for|while|do)\b')
    # first pass: positions
    found = []
    kwpos = []
    found3 = []
    i = 0
    skip_while_at = set()
    pos = 0
    n = len(body)
    while pos < n:
        e = skip_literal(body, pos)
        if e >= 0:
            pos = e + 1
            continue
        m = pat.match(body, pos)
        if m and (pos == 0 or not (body[pos - 1].isalnum() or body[pos - 1] == '_')):
            kw = m.group(1)
            if kw == 'do':
                b0 = m.end()
                while body[b0].isspace():
                    b0 += 1
                if body[b0] != '{':
                    raise ExtractError('do without braces')
                be = match(body, b0, '{', '}')
                mw = re.match(r'\s*while\s*\(', body[be + 1:])
                if not mw:
                    raise ExtractError('do without while')
                pe = match(body, be + 1 + mw.end() - 1, '(', ')')
                skip_while_at.add(be + 1 + mw.start() + len(mw.group(0)) - len(mw.group(0).lstrip()))
                # mark the position of that 'while' keyword so that it is not counted as a loop of its own
                wpos = be + 1 + body[be + 1:].index('while')
                skip_while_at.add(wpos)
                found.append(('do', m.end()))     # CBMC: do <contract> { ... } while (c);
                kwpos.append(m.start())
                found3.append(('do', m.end(), body[be + 1:pe + 1]))
                pos = m.end()
                continue
            if kw == 'while' and pos in skip_while_at:
                pos = m.end()
                continue
            k = m.end()
            while body[k].isspace():
                k += 1
            if body[k] != '(':
                pos = m.end()
                continue
            pe = match(body, k, '(', ')')
            found.append((kw, pe + 1))
            kwpos.append(pos)
            found3.append((kw, pe + 1, body[pos:pe + 1]))
            pos = m.end()
            continue
        pos += 1
    # keys: int = loop ordinal (must exist); str = regex matched against the text from the loop keyword to the end of
    # its header (a loop the regex does not find simply gets no contract: the postconditions then decide)
    chosen = {}
    for o, text in loops.items():
        if isinstance(o, int):
            if o >= len(found):
                raise ExtractError('loop ordinal %d not found (function has %d loops)' % (o, len(found)))
            chosen[o] = text
        elif isinstance(o, tuple) and o[0] == 'all':
            # ('all', regex): every loop whose header matches gets the contract (copies of one loop in several branches)
            hits = [i for i, (kw, at, hdr) in enumerate(found3) if re.search(o[1], hdr, re.S)]
            for h_ in hits:
                chosen[h_] = text
            if not hits:
                bump(st, 'loop-regex-not-found')
        else:
            hits = [i for i, (kw, at, hdr) in enumerate(found3) if re.search(o, hdr, re.S)]
            if len(hits) > 1:
                raise ExtractError('loop regex %r matches %d loops' % (o, len(hits)))
            if hits:
                chosen[hits[0]] = text
            else:
                bump(st, 'loop-regex-not-found')
    out = body
    for o in sorted(chosen, reverse=True):
        at = found[o][1]
        out = out[:at] + '\n' + chosen[o].strip() + '\n' + out[at:]
        bump(st, 'loop-contract')
        # a real instruction between whatever precedes the loop and its head: without it an inlined shim call right before
        # the loop gives the head a second entry edge that bypasses DFCC's havoc (seen as a failing loop_step_unwinding
        # check).  Only where the loop is a statement of a block (after ; { } ), never as the unbraced body of an if/else.
        kp = kwpos[o]
        j = kp - 1
        while j >= 0 and out[j].isspace():
            j -= 1
        if j < 0 or out[j] in ';{}':
            out = out[:kp] + 'int __lc_sep_%d = 0; ' % o + out[kp:]
            bump(st, 'loop-separator')
    st['loops-in-function'] = len(found)
    return out
