"""Bounded stand-ins of form (b) (DESIGN §2.5): exhaustive native enumeration of the REAL C++ function over a stated
finite input space, with the unit's postcondition evaluated natively on every input.  Reported as bounded."""
import os, re, json, subprocess, time
from .extract import REPO

VERIF = os.path.dirname(os.path.dirname(os.path.abspath(__file__)))


def run_native(unit, variant, scratch, tier):
    nv = unit['native']
    res = dict(unit=unit['name'], variant=variant['name'], known=variant.get('known'), status='undecided', reason='', obligations=[],
               solver_s=0.0, stats={}, sources=[dict(file=nv.get('file'), line=0, function=nv.get('function'))], backend='native exhaustive enumeration of the real C++ function (g++ -O1, -fno-access-control)')
    d = os.path.join(scratch, re.sub(r'\W', '_', unit['name'] + '__' + variant['name']))
    os.makedirs(d, exist_ok=True)
    exe = os.path.join(d, 'prog')
    src = os.path.join(VERIF, 'native', nv['cpp'])
    defs = ['-D' + x for x in variant.get('defs', [])] + ['-D' + x for x in nv.get('defs_' + tier, nv.get('defs_quick', []))]
    cmd = ['g++', '-std=gnu++17', '-O1', '-fno-access-control', '-I', os.path.join(REPO, 'include'), '-I', os.path.join(VERIF, 'native')] + defs + [src, '-o', exe, '-lpthread']
    t = time.time()
    r = subprocess.run(cmd, capture_output=True, text=True)
    if r.returncode != 0:
        res['reason'] = 'native harness does not compile against the current headers: ' + r.stderr[-1500:]
        return res
    try:
        r = subprocess.run([exe], capture_output=True, text=True, timeout=unit.get('timeout', 600))
    except subprocess.TimeoutExpired:
        res['reason'] = 'native enumeration timeout'
        return res
    res['solver_s'] = round(time.time() - t, 2)
    # protocol: lines "OBL <name> <SUCCESS|FAILURE> <evaluations> <tag|-> <known|-> | <clause text> | <first failing input or ->"
    #           line  "SPACE <text>"  and "DISTINCT <n>"
    obls = []
    extra = {}
    for l in r.stdout.split('\n'):
        if l.startswith('OBL '):
            head, clause, inp = (l[4:].split(' | ') + ['', ''])[:3]
            name, status, evals, tag, kn = head.split()[:5]
            obls.append(dict(name=name, desc=clause, line=0, function=nv.get('function', ''), status=status, tag=None if tag == '-' else tag,
                             clause=clause, known=None if kn == '-' else kn, evaluations=int(evals), failing_input=None if inp.strip() in ('', '-') else inp.strip()))
        elif l.startswith('SPACE '):
            extra['space'] = l[6:]
        elif l.startswith('DISTINCT '):
            extra['distinct_inputs'] = int(l[9:])
        elif l.startswith('SAMPLE '):
            extra.setdefault('samples', []).append(l[7:])
    if r.returncode not in (0, 1) or not obls:
        res['reason'] = 'native enumeration failed (rc=%d): %s' % (r.returncode, (r.stdout[-400:] + r.stderr[-400:]))
        return res
    res['obligations'] = obls
    if any(o['name'] in ('native.crash', 'native.hang') for o in obls) and not extra.get('distinct_inputs'):
        # the real code died on an enumerated input before the summary lines were printed: that input was enumerated
        extra['distinct_inputs'] = 1
        extra.setdefault('space', 'run ended by a signal in the real code (see the failing input of native.crash)')
    res['extra'] = extra
    res['vacuity'] = 'FAILURE' if extra.get('distinct_inputs', 0) > 0 else 'no inputs enumerated'
    if extra.get('distinct_inputs', 0) <= 0:
        res['reason'] = 'no inputs enumerated'
        return res
    res['checker_cmd'] = ' '.join(cmd[:-4] + ['native/' + nv['cpp']]) + ' && ./prog'
    res['status'] = 'ok'
    return res
