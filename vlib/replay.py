"""Counterexample -> replay file -> native replay against the real headers (DESIGN §2.8)."""
import os, re, json, subprocess, time, shutil
from .extract import REPO

VERIF = os.path.dirname(os.path.dirname(os.path.abspath(__file__)))


def trace_inputs(trace):
    """flatten a CBMC json trace into {lhs: value} for assignments made in the harness and the initial state of
    dynamic objects (last assignment before the enforced function's first own step wins)"""
    vals = {}
    order = []
    for st in trace or []:
        if st.get('stepType') != 'assignment':
            continue
        lhs = st.get('lhs', '')
        v = st.get('value', {})
        if 'data' in v:
            val = v['data']
        elif 'members' in v or 'elements' in v:
            val = _flat(v)
        else:
            val = v.get('name')
        fn = st.get('sourceLocation', {}).get('function', '')
        order.append((lhs, val, fn, st.get('sourceLocation', {}).get('line')))
    return order


def _flat(v):
    if 'data' in v:
        return v['data']
    if 'members' in v:
        return {m['name']: _flat(m['value']) for m in v['members']}
    if 'elements' in v:
        return [_flat(e['value']) for e in v['elements']]
    return v.get('name')


def write_replay(pid, u, r, o, scratch):
    from . import unit as U
    d = os.path.join(os.environ.get('VERIF_REPLAY_DIR') or os.path.join(VERIF, 'replays'), pid)
    os.makedirs(d, exist_ok=True)
    path = os.path.join(d, '%s.%s.%s.json' % (re.sub(r'\W', '_', u['name']), re.sub(r'\W', '_', r['variant']), re.sub(r'\W', '_', o['name'])))
    rec = dict(property=pid, unit=u['name'], variant=r['variant'], obligation=o['name'], description=o['desc'], clause=o.get('clause', ''),
               lowered_line=o['line'], sources=r.get('sources', []), checker_cmd=r.get('checker_cmd'), when=time.strftime('%Y-%m-%dT%H:%M:%S'))
    try:
        lines = open(r['ctext_path']).read().split('\n')
        rec['obligation_text'] = lines[o['line'] - 1].strip() if 0 < o['line'] <= len(lines) else ''
    except Exception:
        pass
    confirmed = False
    if u.get('native'):
        rec['failing_input'] = o.get('failing_input')
        rec['native'] = dict(kind='exhaustive-native', cpp=u['native']['cpp'], note='the failing input was produced by running the real function; re-run: ./check --replay <this file>')
        rec['verifier_output'] = 'native enumeration: %s FAILED on input %r' % (o['name'], o.get('failing_input'))
        confirmed = o.get('failing_input') is not None
    else:
        variant = [v for v in u['variants'] if v['name'] == r['variant']][0]
        tr = None
        # replay-friendly assumptions first (small capacities etc.), then the unconstrained counterexample
        for extra in ([u['replay']['friendly']] if u.get('replay', {}).get('friendly') else []) + [None]:
            v2 = dict(variant, name=variant['name'] + '@trace' + ('f' if extra else ''), defs=list(variant.get('defs', [])) + ([extra] if extra else []))
            rr = U.run_variant(u, v2, scratch, trace_property=o['name'])
            tr = rr.get('trace')
            if tr:
                rec['replay_friendly'] = bool(extra)
                break
        if tr:
            steps = trace_inputs(tr[0])
            rec['trace_assignments'] = [dict(lhs=l, value=v, function=f, line=ln) for l, v, f, ln in steps][:400]
            rec['verifier_output'] = 'cbmc: %s FAILURE (%s); counterexample trace of %d assignments attached' % (o['name'], o['desc'], len(steps))
            rp = u.get('replay')
            if rp and rp.get('template'):
                ok, out, args = native_replay(u, rp, steps, scratch)
                rec['native'] = dict(template=rp['template'], args=args, output=out[-3000:], confirmed=ok)
                confirmed = ok
        else:
            rec['verifier_output'] = 'cbmc: %s FAILURE (%s); no trace could be produced' % (o['name'], o['desc'])
    rec['confirmed_on_real_code'] = confirmed
    if not confirmed:
        rec['note'] = 'no-failing-input-found: the obligation named above passed on the unchanged tree and fails now; the verifier output is attached'
    with open(path, 'w') as fh:
        json.dump(rec, fh, indent=1, default=str)
    return path, confirmed


def native_replay(u, rp, steps, scratch):
    """rp: dict(template=<file under /verif/replay>, op=..., inputs={NAME: regex on trace lhs}) -> (confirmed, output, args)"""
    vals = {}
    for lhs, v, fn, ln in steps:
        if isinstance(lhs, str) and lhs.startswith('SNAP_') and v is not None and not isinstance(v, (dict, list)):
            vals.setdefault(lhs[5:], re.sub(r'(?<=\d)[uUlL]+$', '', str(v)))
    for name, pat in rp.get('inputs', {}).items():
        rx = re.compile(pat)
        for lhs, v, fn, ln in steps:
            if rx.search(lhs or '') and not isinstance(v, (dict, list)) and v is not None:
                vals[name] = v      # last assignment wins unless 'first' requested
                if rp.get('first'):
                    break
    # struct-valued assignments: look inside
    for name, pat in rp.get('struct_inputs', {}).items():
        objpat, path = pat
        rx = re.compile(objpat)
        for lhs, v, fn, ln in steps:
            if rx.search(lhs or '') and isinstance(v, dict):
                cur = v
                try:
                    for k in path:
                        cur = cur[k]
                    vals.setdefault(name, cur)
                except Exception:
                    pass
    src = os.path.join(VERIF, 'replay', rp['template'])
    exe = os.path.join(scratch, 'replay_' + re.sub(r'\W', '_', u['name']))
    defs = ['-DOP_%s' % rp.get('op', 'x')]
    cmd = ['g++', '-std=gnu++17', '-O0', '-g', '-fno-access-control', '-I', os.path.join(REPO, 'include')] + defs + [src, '-o', exe, '-lpthread']
    r = subprocess.run(cmd, capture_output=True, text=True)
    if r.returncode != 0:
        return False, 'replay program does not compile: ' + r.stderr[-1500:], vals
    vals['op'] = rp.get('op', 'x')
    args = ['%s=%s' % (k, v) for k, v in sorted(vals.items())]
    try:
        r = subprocess.run([exe] + args, capture_output=True, text=True, timeout=60)
    except subprocess.TimeoutExpired:
        return True if rp.get('timeout_confirms') else False, 'replay timed out', args
    out = r.stdout + r.stderr
    # protocol: exit 1 + "REPLAY: VIOLATED ..." when the real code violates the postcondition, 0 + "REPLAY: holds" otherwise
    return (r.returncode != 0 and 'REPLAY: VIOLATED' in out) or (r.returncode < 0), out, args


def rerun(path):
    rec = json.load(open(path))
    print(json.dumps({k: rec[k] for k in rec if k not in ('trace_assignments',)}, indent=1)[:6000])
    nat = rec.get('native') or {}
    if nat.get('template'):
        import tempfile
        d = tempfile.mkdtemp(prefix='quillreplay_', dir=os.environ.get('TMPDIR') or '/var/tmp')
        try:
            exe = os.path.join(d, 'r')
            src = os.path.join(VERIF, 'replay', nat['template'])
            op = None
            # the op is recorded in the unit spec; recover it from the args list
            for a in nat.get('args', []):
                if a.startswith('op='):
                    op = a[3:]
            cmd = ['g++', '-std=gnu++17', '-O0', '-g', '-fno-access-control', '-I', os.path.join(REPO, 'include'), src, '-o', exe, '-lpthread'] + (['-DOP_' + op] if op else [])
            r = subprocess.run(cmd, capture_output=True, text=True)
            if r.returncode:
                print(r.stderr[-2000:])
                return 2
            r = subprocess.run([exe] + nat.get('args', []), capture_output=True, text=True, timeout=60)
            print(r.stdout + r.stderr)
            return 1 if r.returncode else 0
        finally:
            shutil.rmtree(d, ignore_errors=True)
    return 0
