"""Decide one property from the results of its units: classify failed obligations, print VIOLATION / KNOWN-FINDING
lines, write the replay files and the evidence file."""
import os, json, time, re, subprocess, sys, shutil
from concurrent.futures import ThreadPoolExecutor
from . import replay as RP

VERIF = os.path.dirname(os.path.dirname(os.path.abspath(__file__)))


def load_known():
    p = os.path.join(VERIF, 'known_findings.json')
    try:
        return json.load(open(p))['findings']
    except Exception:
        return []


def belongs(o, unit, pid):
    # a unit can underlie other properties as a whole (the queues under C03 / C08: 'exactly once, in order, intact' IS their
    # FIFO contract): then every obligation of the unit also decides those properties
    if pid in unit.get('underlies', ()) and not o.get('known'):     # an obligation isolating a known finding stays with the properties it names
        return True
    if o.get('tag'):
        return pid in o['tag'].split(',')
    return unit['primary'] == pid


def decide(pid, tier, units, scratch, run_unit):
    t0 = time.time()
    seed = int(os.environ.get('VERIF_SEED', '0') or 0)
    sel = [u for u in units if pid in u['props'] or pid in u.get('underlies', ())]
    if not sel:
        print('no units serve %s (not claimed)' % pid)
        return 2
    known = [k for k in load_known() if k.get('property') == pid and k.get('status') == 'known']
    known_ids = {k['id']: k for k in known}
    results = []
    workers = int(os.environ.get('VERIF_JOBS', '16'))
    with ThreadPoolExecutor(max_workers=workers) as ex:
        futs = [(u, ex.submit(run_unit, u, scratch, tier)) for u in sel]
        for u, f in futs:
            try:
                rs = f.result()
            except Exception as e:      # a defect of the machinery itself decides nothing: undecided (exit 2), never an alarm
                import traceback
                rs = [dict(unit=u['name'], variant='-', status='undecided', reason='internal error of the check: %s: %s | %s' % (type(e).__name__, e, traceback.format_exc()[-600:].replace('\n', ' / ')), obligations=[])]
            for r in rs:
                results.append((u, r))
    for u, r in results:
        cc = r.get('crosscheck')
        if r['status'] == 'ok' and cc and cc.get('agree') is False:
            r['status'] = 'undecided'
            r['reason'] = 'thorough cross-check: the second back end (%s) does not reproduce the obligation statuses (%s %s)' % (cc.get('solver'), cc.get('status'), cc.get('reason', '')[:200])
    # A loop contract lists the variables its loop may assign.  When the ONLY failing obligations of a unit are 'Check that <local> is
    # assignable' for plain local variables (not fields, not ghosts, not pointer targets), no clause about behaviour failed: a local was
    # hoisted out of / introduced next to a loop and the frame text of the loop contract no longer covers it.  That is 'machinery needs
    # updating' (exit 2), not a violation - a harmless hoisting must not raise an alarm.
    for u, r in results:
        if r['status'] != 'ok' or u.get('native'):
            continue
        fa = [o for o in r.get('obligations', []) if o['status'] == 'FAILURE']
        if fa and all(re.fullmatch(r'Check that (?!g_)[A-Za-z_]\w* is assignable', (o.get('desc') or '').strip()) for o in fa):
            r['status'] = 'undecided'
            r['reason'] = 'only frame checks of local variables failed (%s): a loop contract does not list a local the changed text assigns; no behavioural clause failed' % ', '.join(sorted({o['desc'].split()[2] for o in fa}))
    undecided = [(u, r) for u, r in results if r['status'] != 'ok']
    viol = []      # (unit, result, obligation)
    knownhits = {}  # kid -> list
    n_obl = n_dis = n_bounded = n_bounded_ok = n_known_obl = 0
    unit_ev = []
    samples = []
    trusted = []
    assumptions = []
    solver_s = 0.0
    for u, r in results:
        mine = [o for o in r.get('obligations', []) if belongs(o, u, pid)]
        fails = [o for o in mine if o['status'] == 'FAILURE']
        kfail = []
        for o in fails:
            kid = o.get('known') or (r.get('known') if r.get('known_all') else None)
            if kid and kid in known_ids:
                knownhits.setdefault(kid, []).append((u, r, o))
                kfail.append(o)
            else:
                viol.append((u, r, o))
        bounded = bool(u.get('bounded'))
        cnt = len(mine) - len(kfail)
        ok = sum(1 for o in mine if o['status'] == 'SUCCESS')
        if bounded:
            n_bounded += cnt
            n_bounded_ok += ok
        else:
            n_obl += cnt
            n_dis += ok
        n_known_obl += len(kfail)
        solver_s += r.get('solver_s', 0) or 0
        for t in u.get('trusted', []):
            if t not in trusted:
                trusted.append(t)
        for t in u.get('assumes', []):
            if t not in assumptions:
                assumptions.append(t)
        unit_ev.append(dict(
            unit=u['name'], variant=r['variant'], kind=u.get('kind', ''), role=('primary' if u['primary'] == pid else 'secondary (tagged clauses only)'),
            description=u.get('desc', ''), sources=r.get('sources', []), status=r['status'], reason=r.get('reason', ''),
            obligations=len(mine), discharged=ok, known_finding_failures=len(kfail),
            bounded=u.get('bounded'), loops=('loop contracts' if u.get('loopcontracts') else ('unwinding' if u.get('bounded') else 'none')),
            backend=r.get('backend', 'cbmc 6.11.0 (goto-instrument --dfcc) / SAT cadical'), solver_s=r.get('solver_s'),
            vacuity=('probe after the call fails as required (precondition satisfiable, exit reachable)' if r.get('vacuity') == 'FAILURE' else r.get('vacuity')),
            replaced_callees=r.get('replaced', []), passes_fired=r.get('stats', {}), dropped=u.get('dropped', []),
            contract_hash=r.get('contract_hash'), checker_cmd=r.get('checker_cmd'), crosscheck=r.get('crosscheck'), extra=r.get('extra')))
        for o in mine[:400]:
            if o.get('clause') and len(samples) < 12:
                samples.append(dict(unit=u['name'], obligation=o['name'], clause=o['clause'], status=o['status']))
    if not samples:
        for u, r in results:
            for o in r.get('obligations', [])[:3]:
                samples.append(dict(unit=u['name'], obligation=o['name'], desc=o['desc'], status=o['status']))
    # ---- output lines
    rc = 0
    for kid, hits in knownhits.items():
        print('KNOWN-FINDING: property=%s %s [%s: %s]' % (pid, known_ids[kid]['what'], kid, ', '.join(sorted(set('%s:%s' % (u['name'], o['name']) for u, r, o in hits)))))
    vio_files = []
    if viol and not undecided:
        seen = set()
        for u, r, o in viol:
            key = (u['name'], r['variant'], o['name'])
            if key in seen:
                continue
            seen.add(key)
            path, confirmed = RP.write_replay(pid, u, r, o, scratch)
            vio_files.append(path)
            tail = '' if confirmed else ' no-failing-input-found'
            print('VIOLATION property=%s replay=%s%s' % (pid, path, tail))
            print('  unit %s [%s] obligation %s (line %d of the lowered unit): %s %s' % (u['name'], r['variant'], o['name'], o['line'], o['desc'], ('— ' + o['clause']) if o.get('clause') else ''))
        rc = 1
    elif viol and undecided:
        # a violation next to an undecided unit is still a violation if the failing unit itself is decided
        seen = set()
        for u, r, o in viol:
            if r['status'] != 'ok':
                continue
            key = (u['name'], r['variant'], o['name'])
            if key in seen:
                continue
            seen.add(key)
            path, confirmed = RP.write_replay(pid, u, r, o, scratch)
            vio_files.append(path)
            print('VIOLATION property=%s replay=%s%s' % (pid, path, '' if confirmed else ' no-failing-input-found'))
            print('  unit %s [%s] obligation %s: %s %s' % (u['name'], r['variant'], o['name'], o['desc'], ('— ' + o['clause']) if o.get('clause') else ''))
            rc = 1
    for u, r in undecided:
        print('UNDECIDED unit=%s variant=%s: %s' % (u['name'], r['variant'], r.get('reason', '')[:600]))
    if undecided and rc == 0:
        rc = 2
    wall = time.time() - t0
    level = 'proof'
    try:
        man = json.load(open(os.path.join(VERIF, 'MANIFEST.json')))
        for c in man.get('checks', []):
            if c['property_id'] == pid:
                level = c['level_claimed']['category']
    except Exception:
        pass
    nat_evals = sum(o.get('evaluations', 0) for u, r in results for o in r.get('obligations', []) if belongs(o, u, pid) and 'evaluations' in o)
    nat_distinct = sum((r.get('extra') or {}).get('distinct_inputs', 0) for u, r in results if u.get('native'))
    nat_rule = '; '.join((r.get('extra') or {}).get('space', '') for u, r in results if u.get('native') and (r.get('extra') or {}).get('space'))
    nat_samples = [x for u, r in results if u.get('native') for x in (r.get('extra') or {}).get('samples', [])]
    cov = dict(
        obligations=n_obl, discharged=n_dis,
        checker_cmd='per unit: goto-cc --function HARNESS unit.c -o a.gb && goto-instrument --dfcc HARNESS --enforce-contract <F> [--replace-call-with-contract <G>]... [--apply-loop-contracts] a.gb b.gb && cbmc --bounds-check --pointer-check --div-by-zero-check --signed-overflow-check --sat-solver cadical --object-bits 12 b.gb   (driver: ./check %s %s)' % (pid, tier),
        trusted_base=trusted,
        samples=samples,
        units=unit_ev,
        functions_under_contract=sorted(set(s['function'] for u, r in results for s in r.get('sources', []) if s.get('file'))),
        bounded_obligations=n_bounded, bounded_discharged=n_bounded_ok,
        known_finding_obligations=n_known_obl,
        known_findings_reported=sorted(knownhits.keys()),
        undecided_units=[u['name'] + '[' + r['variant'] + ']' for u, r in undecided],
        solver_time_s=round(solver_s, 1),
        explanation='obligations = CBMC properties generated for the enforced contract of each unit (contract clauses, callee preconditions, frame checks, pointer/bounds checks, loop-invariant base/step) attributed to this property; bounded stand-ins are counted separately and never as discharged proof obligations',
    )
    if nat_evals:
        cov['evaluations'] = nat_evals
        cov['distinct_nontrivial'] = nat_distinct
        cov['rule'] = 'bounded stand-in, exhaustive: ' + nat_rule + ' (every enumerated input is distinct; non-trivial = satisfies the stated precondition of the obligation it is evaluated for)'
        cov['exhaustive'] = True
        cov['samples'] = (cov.get('samples') or []) + [dict(native_input=x) for x in nat_samples[:5]]
    if level == 'proof' and n_obl == 0:
        level = 'other'
    ev = dict(property_id=pid, tier=tier, seed=seed, level=level, coverage=cov,
              assumptions=assumptions + ['machine arithmetic is bit-precise (CBMC), no mathematical-integer idealisation',
                                         'the lowering of DESIGN.md §2.1 preserves the semantics of the cut text'],
              wall_s=round(wall, 2), violations=len(vio_files))
    if not os.environ.get('VERIF_NO_EVIDENCE'):
        os.makedirs(os.path.join(VERIF, 'evidence'), exist_ok=True)
        with open(os.path.join(VERIF, 'evidence', pid + '.json'), 'w') as fh:
            json.dump(ev, fh, indent=1, default=str)
    print('%s %s: %d units, %d/%d obligations discharged, bounded %d/%d, known-finding obligations %d, %.1fs -> exit %d' % (
        pid, tier, len(results), n_dis, n_obl, n_bounded_ok, n_bounded, n_known_obl, wall, rc))
    return rc


def replay_file(path):
    return RP.rerun(path)
